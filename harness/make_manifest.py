"""Regenerate /verif/MANIFEST.json from the table below (python3 harness/make_manifest.py)."""
import json, os
V = os.path.dirname(os.path.dirname(os.path.abspath(__file__)))
CLAIMED = {
 "C01": dict(
   text="PARTIAL proof + validation. Proved: the closed form for the stars of the turning-off bin (IMF integrated below the turn-off mass) solves exactly the ODE the code "
        "integrates (is_derive, from the verified moment integral and sweep speed), the field's flux at such a state is that expression, any solution of that linear equation with the "
        "same initial value IS the closed form (uniqueness), the closed form is the IMF integrated below the turn-off mass, and over any stretch with one deposit bin the stars that "
        "left / the remnant mass deposited equal the IMF / the IMF-weighted remnant mass integrated over the progenitors swept by the turn-off (change of variables), for any "
        "continuous IFMR; the ties of IMF (C11), bins (C13), "
        "lifetimes (C14), IFMR (C09) and field (C02) compose. Validated on every run, NOT proved: full constructions over random IMFs / layouts / metallicities / all IFMR methods / "
        "retention fractions / N0 / ages against the closed-form star counts and per-bin remnant numbers and masses (IMF above the turn-off pushed through the IFMR on a 40000-point "
        "progenitor grid), at the default tolerance and with the tolerance tightened from outside.",
   design="8/C01", technique="Coq/Coquelicot proof that the closed form solves the modelled ODE + closed-form differential validation of full runs",
   note="Trusted: Coq kernel; Reals/Coquelicot axioms; NOT proved: the summation of the per-stretch deposits over a whole history (bin / class changes), the Nmin cut-off residue (allowed for "
        "explicitly: 0.1 object per turned-off star bin) and dopri5's convergence; harness + fullrun.py."),
 "C05": dict(
   text="Proof: the mean mass P2/P1 of a star bin truncated at the turn-off mass lies strictly between the lower edge and min(upper edge, turn-off mass) for every slope; the remnant "
        "flux lies in the cone of its bin (lower*dNr <= dMr <= upper*dNr) and goes to the predicted class only; escape is radial for remnants (C03), kicks and ejection preserve "
        "bin means (C15, C07, C08); along the EXACT solution of the modelled equations (deposit in the bin's cone + escape at a common factor for number and mass) a remnant bin's "
        "mean mass never leaves [lower, upper] (integrating-factor argument, C05c). Validated on every run (the solver is not modelled; cone invariance is not a property of "
        "DOPRI5's negative weight): full constructions, including ages just after a bin edge turns off, with "
        "escape on both sides of core collapse, kicks, partial retention and BH targets - every populated bin's mean against its edges, NS bins at exactly the NS mass, empty "
        "remnant bins at their centre.",
   design="8/C05", technique="Coq proofs of the cone/mean invariants at field level + validation of per-row means on full runs",
   note="Trusted: Coq kernel; Reals axioms; per-row statements hold for the exact solution / Euler steps, measured (not proved) for dopri5; harness + fullrun.py."),
 "C04": dict(
   text="PARTIAL. Proved: the filtered summary views are consistent for ANY last row (M, N, m, types have length nms+nmr; exactly the bins with N > 10 Nmin, NaN counted as absent; "
        "star bins first then remnants in stored order; m = M/N), tied to the implementation by running the real property getters on injected multi-row arrays (exact); and along the "
        "EXACT solution of the modelled equations every count and mass stays non-negative and an empty star bin stays empty (each component obeys g' = c(t) g + h(t), h >= 0). "
        "Explored, not proved (the Fortran solver, its evaluation points and first trial step are not modelled): random valid configurations over the documented domain for both model "
        "classes in parallel, every public array inspected for finiteness / sign, exceptions classified by call site against the listed findings.",
   design="8/C04", technique="Coq proof of view consistency + exact getter correspondence + classified random exploration of full constructions",
   note="Level is proof for the views only; the pipeline clauses (no exception, finite, non-negative) are explored on 48 (quick) / 600 (thorough) configurations per run."),

 "C19": dict(
   text="Proof: up to the final age, whenever the turning-off bin has the slope of the IMF's last segment, the simplified nested derivative IS the full stellar-evolution "
        "derivative with full BH retention and the same empty-bin threshold (equality of the two model functions for every state), so the two integrations coincide step "
        "for step; a non-BH remnant before the final age is a RuntimeError; after the final age nothing is deposited. The nested copy of |dm_to/dt| is re-extracted and "
        "proved equal to the model kernel (T2). The nested closure is CAPTURED from the running constructor and compared with the model on arbitrary (t, y). Oracle: "
        "from_IMF vs EvolvedMF to the same age (per-bin N, M), reported age, stellar losses vs closed-form IMF integrals, from_BHMF edges / sum, kicks only remove.",
   design="8/C19", technique="Coq proof of equality of two model fields + regenerated formula tie + float correspondence on a captured closure + full-model differential oracle",
   note="Trusted: Coq kernel; Reals axioms; harness (closure capture); open findings: slope of the last segment used for all progenitors, Ms_lost on untruncated edges."),

 "C18": dict(
   text="Proof: the binned initial values are linear in N (slopes unchanged); the stellar-evolution field is homogeneous of degree one in the star counts provided no "
        "'empty bin' comparison changes side (the only place an absolute constant enters); BH ejection is homogeneous in (bins, budget); and (RK.v) a homogeneous field "
        "gives a homogeneous numerical flow for ANY explicit tableau and step sequence. Per run: a regenerated inventory of every numeric literal in the derivative and "
        "ejection functions must equal the inventory the models account for (an added absolute threshold breaks this obligation); field-level scale pairs for both "
        "derivative parts on arbitrary states; bit-exact power-of-two scaling of ejection; pairs of full constructions at scale factors 0.1-100 for the three model classes; "
        "explicit N0 vs the IMF object's own N0 and from_powerlaw vs IMF object compared bit-for-bit for EvolvedMF, EvolvedMFWithBH and InitialBHPopulation.",
   design="8/C18 + 4", technique="Coq homogeneity proofs (fields, ejection, RK flow) + regenerated literal inventory + scale-pair differential oracle",
   note="Trusted: Coq kernel; Reals axioms; escape-field homogeneity is measured on the implementation, not proved; full-run pairs are integrated with the tolerance "
        "tightened from outside (dopri5's absolute atol makes the default-tolerance result scale only to integrator accuracy - measured 2e-2 in a turn-off bin's slope); harness."),

 "C17": dict(
   text="Proof: in the model of the constructors' validation (checks in source order) any ONE invalid family - positive constant escape rate, unknown escape norm, unknown "
        "BH/WD IFMR method, analytic parameters failing the end-point validation, overlapping WD/BH progenitor ranges, unknown binning or kick method, f_BH list of wrong "
        "length or with a negative entry, mis-sized or non-increasing IMF breaks - yields ValueError whatever the rest of the request is, and a request in none of the families "
        "passes; the convergence flag (conjunction over ALL integrate calls, scipy's flag being sticky) is false as soon as any segment failed - incl. an intermediate one - "
        "and true only if every segment succeeded. Requests of every family x random otherwise-valid configurations run against the real constructors; solver failures are "
        "injected into the REAL scipy ode object at chosen calls and provoked natively with a 3-step budget.",
   design="8/C17", technique="Coq proofs by case analysis over a validation model + exception-class correspondence + fault injection into the real solver object",
   note="Trusted: Coq kernel; Reals axioms; harness (request generator, failure-injecting subclass); scipy's sticky success flag is exercised, not proved; over-ejection and "
        "kicks-over-budget are proved in C07, the unreachable strict target in C08."),

 "C16": dict(
   text="Proof: in the store model of argument objects (handles to mutable option dictionaries, arbitrary sharing), for EVERY history of constructor calls the store "
        "afterwards equals the store before and every result equals the result of the same call on the original store; a dictionary that does not fix the metallicity "
        "yields the requested one; machine-checked refutation for the code before fix cc856a2 (setdefault on the caller's object). Random histories of IFMR / EvolvedMF / "
        "EvolvedMFWithBH / InitialBHPopulation.from_IMF calls sharing dicts, lists, arrays and IMF objects: every shared object deep-snapshotted around each call, every "
        "result compared bit-for-bit with the same call evaluated alone in a FRESH interpreter; the effective metallicity of dictionary-sharing IFMR sequences is "
        "observed (table opened) and compared with the model.",
   design="8/C16", technique="Coq proof by induction over call histories on an explicit object store (axiom-free) + history-vs-fresh-interpreter differential oracle",
   note="Trusted: Coq kernel (theorems closed under the global context); the store model covers option dictionaries (lists/arrays/IMF objects are covered by the "
        "snapshot oracle only); harness + fresh_worker.py; the documented in-place routines are checked in C07/C08/C15."),

 "C06": dict(
   text="Proof over ALL schedules (lists of non-negative ages of any length, unsorted, with repeats, with ages equal to turn-off times or 0): the integration grid is "
        "sorted and contains every requested age; row i holds the extraction (with row index i, hence its own BH target) of the flow from 0 to ITS OWN age whenever i is "
        "the first occurrence of that age; age 0 gives the extraction of the initial state; machine-checked refutation for repeated ages (later rows stay unwritten). The "
        "solver is an abstract flow with identity and semigroup laws as explicit hypotheses. The same model runs on floats against the real _evolve of both classes "
        "driven by a stateful stand-in solver (in-place damage to sol.y would carry over), on random schedules; unwritten rows detected with a NaN sentinel.",
   design="8/C06 + 4", technique="Coq proof by induction over the sorted grid with an abstract flow + exact correspondence on random schedules + alone-vs-schedule oracle",
   note="Trusted: Coq kernel; Reals axioms; the flow laws are hypotheses (dopri5 satisfies them to its tolerance only: measured with the real solver at 2e-3); harness "
        "(stand-in solver, sentinel wrapper of np.empty)."),

 "C09": dict(
   text="Proof: a linear spline through knots that are positive, at least the table minimum and not above their progenitor stays so for EVERY mass between the first and "
        "last knot (gaps included) and passes through its knots; the integer checks the kernel evaluates on each regenerated table imply those knot conditions with "
        "lo = table minimum = declared BH_mf.lower; the three classes are contiguous ranges in the order WD < NS < BH and predict/predict_type use the same boundaries; "
        "a validated linear prescription stays in (0, mi]. Every run regenerates: the type-14 rows of the BH tables (quick: seeded sample incl. each family's ends and "
        "zero files; thorough: all 1186) checked by vm_compute; the 7 WD polynomials, bounded for every real mass in [0.7, m_max] by the interval tactic against the "
        "maximum the implementation declares; the analytic defaults scraped from the source, bounded by interval. Float instance vs IFMR.predict/predict_type on knots, "
        "gaps and class boundaries +- ulp; oracle on dense grids incl. ulp-neighbourhoods of the WD polynomial's extrema.",
   design="8/C09", technique="Coq proofs (list induction, convexity) + per-run regenerated data obligations (vm_compute, interval) + float correspondence + oracle",
   note="Trusted: Coq kernel; Reals axioms; Interval library (primitive-integer axioms listed by Print Assumptions); translators in harness/props/C09.py; FITPACK linear spline "
        "modelled as piecewise-linear interpolation (1e-12); numpy's root finder not modelled (its output is checked). Quick tier proves a sample of tables only."),

 "C15": dict(
   text="Proof: with erf's defining facts as explicit hypotheses (erf is not in Coq's library), the closed-form cdf IS the integral of the Maxwellian pdf from 0 to v, lies in "
        "[0,1] and is non-decreasing in v; full fallback gives 1; the sigmoid lies in [0,1]; linear interpolation of the fallback fraction stays between its neighbours; "
        "and the kick loop, for ANY retention values in [0,1] and any bins, scales populated bins (mean preserved, nothing increases), leaves bins below 0.1 objects "
        "untouched and reports exactly the mass removed. Float instance vs the implementation: sigmoid, fallback interpolation (sorted table columns regenerated), kick "
        "loop with injected retention (bit-exact), Maxwellian retention (closed form since fix e8173a9) at 1e-9; independent table reading as oracle.",
   design="8/C15", technique="Coq/Coquelicot proofs (erf axiomatised by hypotheses, not by Axiom) + bit-exact / 1e-9 float correspondence + oracle",
   note="Trusted: Coq kernel; Reals/Coquelicot axioms (evidence); the three stated facts about erf are hypotheses of the theorems (scipy.special.erf is trusted to satisfy "
        "them); FloatFun erf/exp; interp1d modelled from scipy's algorithm on pre-sorted columns; harness."),

 "C20": dict(
   text="Proof (model of the code after three fix commits): the moment helpers are the Riemann integrals of x^-a and x*x^-a for EVERY exponent (logarithmic cases exactly at "
        "1 and 2), the continuity constants make the density continuous at every interior limit for any number of pieces, constants and normalisation are positive, the "
        "scaled piece integrals sum to one, the density is non-negative, integral() inside a piece returns the two moments of that same density, and the single-piece "
        "sampler maps [0,1] into [xmin,xmax] for every slope incl. 1. Source expressions re-extracted (T2); float instance vs Kroupa on generated pdfs incl. exponents "
        "exactly 1 and 2; quad oracle.",
   design="8/C20", technique="Coq/Coquelicot proofs (reusing the verified power-law integral) + regenerated formula tie + float correspondence + quad oracle",
   note="Trusted: Coq kernel; Reals/Coquelicot axioms (evidence); FloatFun; harness; numpy.random is not modelled (the sampler is checked on recorded variates)."),

 "C08": dict(
   text="Proof: the closed form Mrem removes exactly what reaches the target ((Mb-x) = f (Mt-x)); for every bin list, non-BH mass Mo>0 and target 0<=f<1 below the "
        "fraction formed, the loop ends with BH mass = f * total mass, heaviest first with the cut structure and mean-mass preservation of the standard model, and "
        "never runs off the array; a target at or above the fraction formed leaves the arrays untouched; strict mode raises, non-strict warns, nothing happens before "
        "BHs form. Mrem is re-extracted from the source each run (T2). Bit-exact float correspondence on arrays and through the real _evolve with multi-row schedules and "
        "per-age targets, injected kicks; oracle: target met per row, stars/other remnants untouched, reported retention.",
   design="8/C08", technique="Coq proof by induction with a loop invariant (real instance) + regenerated formula tie + bit-exact float correspondence + oracle",
   note="Trusted: Coq kernel; Reals axioms (evidence); harness (stand-in solver, injected kick factors); numpy sums passed as inputs; rounding in the extreme regime "
        "(almost everything removed) is allowed for explicitly in the oracle (1e-14 max(M)/Mtot)."),
 "C10": dict(
   text="Proof over ALL rationals (every float is one): two-decimal formatting is within half a hundredth and keeps the sign bit; for a complete grid every metallicity "
        "maps to a table that exists and whose value is within half a hundredth of the clamped metallicity. The directory listings of the four families are regenerated "
        "each run and their completeness (every hundredth between the ends, both zeros, equal zero tables) is decided by the kernel. The table actually opened is observed "
        "by wrapping numpy.loadtxt and compared with the model on the float's exact rational for thousands of metallicities incl. rounding-adversarial ones; WD / lifetime "
        "rows and the kick metallicity checked against nearest-value and clamp.",
   design="8/C10", technique="Coq proof over Q (closed under the global context) + regenerated directory listings (vm_compute) + exact-rational correspondence",
   note="Trusted: Coq kernel (theorems are axiom-free); CPython's correctly rounded float formatting; harness loadtxt wrapper; translator for listings."),

 "C02": dict(
   text="Proof (field level, every configuration / state / age): only the bin containing the turn-off mass loses stars (mto < upper and lower <= mto, via the proved "
        "inverse/monotone lifetime functions), the flux re-appears in the class and bin dictated by the IFMR scaled by the class retention fraction with dMr = m_rem dNr, "
        "zero-mass remnants are skipped, per-bin star counts never grow, numbers are conserved when the class is fully retained, the total mass rate is <= 0 when "
        "m_rem <= mto, and all other entries of the derivative (incl. slopes) are zero. RK lemmas for EVERY explicit tableau and step sequence lift the linear identities "
        "to whatever steps dopri5 takes (object count exactly conserved / evolves by the method's quadrature of the escape rate). Float instance compared with "
        "_derivs_sev on arbitrary states of 5-8 layouts/metallicities/IFMR methods; retention fractions expected from the constructor arguments.",
   design="8/C02 + 4", technique="Coq proofs over a polymorphic field model + Runge-Kutta linear-invariant lemmas + float correspondence on arbitrary states + oracle",
   note="Trusted: Coq kernel; Reals axioms (evidence); the IFMR prediction is an input of the model field (C09); dopri5's controller is not modelled (RK lemmas hold for any steps); "
        "stage states are assumed to stay in the field's domain; harness; FloatFun. Knife-edge cases (turn-off mass within 1e-9 of an edge) are counted, not compared."),
 "C03": dict(
   text="Proof (field level): before core collapse the losses over all star and remnant bins sum to the rate (N) / the mass losses at the bins' mean masses sum to the "
        "rate (M), every bin loses the same fraction, slopes fixed, remnant means preserved (with the necessary non-zero-total hypothesis - its necessity is itself a "
        "machine-checked refutation found while proving); after core collapse the losses sum to the rate, bins whose mean mass is not below md are untouched, remnant "
        "weights are N(1-sqrt(mr/md)) and remnant means are preserved. RK lemmas give N(t) = N0 + quadrature of the rate for any steps. Float instance compared with "
        "_derivs_esc on arbitrary states (both branches, both norms, callable and constant rates, md 0.3-5); quad-based oracle for the 1-sqrt(m/md) weighting.",
   design="8/C03 + 4", technique="Coq proofs over a polymorphic field model + RK lemmas + float correspondence + quad oracle",
   note="Trusted: Coq kernel; Reals axioms (evidence); numpy pairwise sums compared at 1e-8; harness; FloatFun. Not proved: the post-collapse M-normalisation sum "
        "and the integral form of Is/Js (checked by the oracle against quad on every sampled state); 'mass change implied by evolving slopes' is measured only."),

 "C11": dict(
   text="Proof: for any number of segments (induction over the segment list) the normalisation constants exist and are positive, the IMF is continuous at every "
        "interior break, the segment integrals of N(m)/N0 sum to exactly one and each is the Riemann integral of that segment's power law (C12), evaluation follows the "
        "zero / extrapolate / raise modes, a bin inside one segment gets that segment's constant and slope (hence the integrals of N(m) and m N(m)), total mass is linear "
        "in N0 and from_M0 returns the requested mass; machine-checked refutation of the documented 'bins need not align with breaks'. Float instance compared with "
        "PowerLawIMF on generated IMFs (1-6 segments, slopes incl. -1/-2, all ext spellings, exact-break masses, aligned/straddling/outside bins); quad is the oracle.",
   design="8/C11", technique="Coq proofs by induction over segments + Coquelicot integrals + float correspondence + quad oracle",
   note="Trusted: Coq kernel; Reals/Coquelicot axioms (evidence); FloatFun; harness (Mtot is the closed-form sum since fix 7d88d64; it used to be a single quad call)."),

 "C13": dict(
   text="Proof: for every break list, every list of positive counts and both spacings the edges exist, are strictly increasing, contain every break and have "
        "sum(counts)+1 entries; bins built from them tile the range; lookup returns i iff lower_i <= m < upper_i and raises exactly outside; truncation changes "
        "only the upper edge of the bin holding the turn-off mass; BH/WD/NS carving has the stated shape under stated hypotheses; pack and unpack are inverse "
        "bijections with the documented blueprint - all by induction over lists of any length. The float instance of the same model is compared with MassBins on "
        "generated layouts (int / list / dict forms, both spacings, real and stub IFMR bounds, edges on IFMR bounds).",
   design="8/C13", technique="Coq proofs by list induction (real instance) + bit-exact float correspondence + property oracle on constructed MassBins",
   note="Trusted: Coq kernel; Reals axioms listed in evidence; numpy.geomspace modelled mathematically (1e-12), linspace operation-by-operation; harness. "
        "Dict-form remnant bins are exercised by the oracle only (not modelled). Open finding: edge at the WD maximum."),

 "C12": dict(
   text="Proof: Coq theorems (Coquelicot) that the helper's closed form IS the Riemann integral of m^(a+k-1) on [m1,m2] in both branches, is positive, additive, "
        "brackets consecutive moments (mean mass inside the bin), has the stated derivative, returns NaN exactly below the threshold and on degenerate/inverted "
        "intervals, and that the array form is element-wise - for all real a, k and 0<m1<m2; plus a machine-checked refutation of the absolute-threshold clause. "
        "The two source expressions are re-extracted from masses.py on every run and proved equal to the model kernels (T2); the float instance is compared with "
        "the implementation (T3) and a 60-digit reference integral is the oracle.",
   design="8/C12", technique="Coq/Coquelicot real-analysis proofs + regenerated formula tie (ast translator) + float correspondence + decimal-reference oracle",
   note="Trusted: Coq kernel; Reals/Coquelicot/Interval axioms listed in evidence; ast translator; FloatFun pow/ln; the 1e-9 rounding-accuracy clause is not a theorem "
        "over R - it is measured per case (two listed known findings: absolute NaN threshold, cancellation in the generic branch)."),
 "C14": dict(
   text="Proof: for all a0>0, a1>0, a2<0 the lifetime is strictly decreasing, the turn-off mass strictly decreasing and infinite up to a0, the two are mutual "
        "inverses, and the hand-differentiated sweep speed is minus the derivative of the turn-off function (is_derive) and positive; the nearest-row lookup minimises "
        "|grid-FeH|. Every run regenerates the 20 table rows as exact decimals (sign conditions decided by vm_compute, theorems instantiated per row) and re-extracts "
        "tms, mto and BOTH source copies of dmdt (main model and initial-BH-population model) and proves them equal to the model kernels.",
   design="8/C14", technique="Coq/Coquelicot proofs + regenerated table and formula ties + float correspondence incl. captured nested closure",
   note="Trusted: Coq kernel; Reals/Coquelicot axioms listed in evidence; translators gen_tables/gen_formulas; FloatFun; floating-point rounding of the implementation is bounded per case only."),

 "C07": dict(
   text="Proof: Coq theorems (real instance of the polymorphic model Model/Eject.v) that the ejection loop removes exactly the requested mass, "
        "heaviest bin first, with the stated cut structure, mean-mass preservation, non-negativity and the ValueError on over-ejection, for ALL lists "
        "of bins and all budgets (induction over the bin list); budget/shortcut/kick-budget theorems for the post-processing block. The same Gallina term "
        "is executed on binary64 floats and compared bit-exactly with the implementation on generated arrays and through the real _evolve (stand-in solver).",
   design="8/C07", technique="Coq proof by list induction over a polymorphic model + bit-exact float correspondence (vm_compute) + property oracle",
   note="Trusted: Coq kernel/vm_compute/primitive floats; Reals axioms (listed per theorem in evidence); correspondence harness; numpy sum passed as input; "
        "rounding inside the routine is not covered by the real-number theorems (it is covered case-by-case by the bit-exact tie; the one rounding defect found is a listed known finding)."),
}
NOT_YET = "check not built yet (build in progress; design in DESIGN.md section 8)"
def main():
    props = [json.loads(l) for l in open(os.path.join(V, "properties.jsonl"))]
    m = dict(version=1, setup_cmd="./setup.sh",
             hooks=dict(guard="SSPTOOLS_VERIF",
                        enable="no source hooks are needed: every observed routine is reachable from Python; the harness substitutes recording/stand-in "
                               "classes inside its own process (SSPTOOLS_VERIF=1 is exported by ./check but no code in /repo reads it)",
                        baseline_off_cmd="cd /repo && /venv/bin/python -m pytest -ra -q -p no:cacheprovider --timeout=900 --continue-on-collection-errors",
                        source_commits=[], add_only=True),
             engines=[dict(name="coq-ssp", path="/verif/coq", serves_properties=sorted(CLAIMED),
                           kind_free_text="Coq 8.16.1 development: polymorphic Gallina models (Model/*.v), proofs (Proofs/*.v), property statements "
                                          "(Properties/Cxx.v), generated obligations (gen/), executed float instances (cases/)")],
             checks=[], notes="See DESIGN.md. Fix commits in /repo: see known_findings.json ('fixed' entries).", not_applicable=[])
    for p in props:
        cid = p["id"]
        if cid in CLAIMED:
            c = CLAIMED[cid]
            m["checks"].append(dict(property_id=cid, quick_cmd="./check %s --tier quick" % cid,
                                    thorough_cmd="./check %s --tier thorough" % cid,
                                    evidence_file="/verif/evidence/%s.json" % cid,
                                    replay_cmd_template="./check %s --replay {path}" % cid, engine="coq-ssp",
                                    level_claimed=dict(category="proof", text=c["text"], design_ref="DESIGN.md " + c["design"]),
                                    level_note=c["note"], technique=c["technique"]))
        else:
            m["not_applicable"].append(dict(property_id=cid, reason=NOT_YET))
    json.dump(m, open(os.path.join(V, "MANIFEST.json"), "w"), indent=1)
main()
