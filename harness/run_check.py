"""Driver: ./check Cxx [--tier quick|thorough] [--replay file]"""
import argparse
import importlib
import json
import os
import sys
import traceback

sys.path.insert(0, os.path.dirname(os.path.abspath(__file__)))
import common  # noqa


def main():
    ap = argparse.ArgumentParser()
    ap.add_argument("cid")
    ap.add_argument("--tier", default=os.environ.get("VERIF_TIER", "quick"), choices=["quick", "thorough"])
    ap.add_argument("--replay", default=None)
    a = ap.parse_args()
    seed = int(os.environ.get("VERIF_SEED", "0") or 0)
    if a.replay:
        # a replay re-creates the run that wrote the file: same seed and tier (replays that re-examine one stored input ignore them)
        try:
            pl = json.load(open(a.replay))
            seed, a.tier = int(pl.get("seed", seed)), pl.get("tier", a.tier)
        except Exception:  # noqa
            pass
    common.impl_env()
    chk = common.Check(a.cid, a.tier, seed)
    mod = importlib.import_module("props." + a.cid)
    write_ev = (not a.replay) and not os.environ.get("VERIF_NO_EVIDENCE")
    try:
        # 0. the development must contain no escape hatches
        hits = common.forbidden_scan()
        chk.oblige("no Admitted/admit/Axiom/Parameter/unsafe flags in coq/", not hits, "; ".join(hits[:5]))
        # 1. static theorems: built, and the property file re-checked now
        common.ensure_static_built(a.cid, getattr(mod, "STATIC", ()))
        ok, thms, log = common.check_property_file(a.cid)
        if not ok:
            chk.oblige("Properties/%s.v compiles" % a.cid, False, log)
        for nm, ax in thms:
            bad = common.axioms_ok(ax)
            chk.oblige("theorem %s" % nm, not bad, "axioms: %s" % (", ".join(ax) or "none (closed)"))
            for x in ax:
                chk.trusted.append("axiom " + x)
        if log:
            chk.notes.append(log)
        for extra in getattr(mod, "EXTRA_PROPS", ()):
            ok2, thms2, log2 = common.check_property_file(extra)
            if not ok2:
                chk.oblige("Properties/%s.v compiles" % extra, False, log2)
            for nm, ax in thms2:
                chk.oblige("theorem %s" % nm, not common.axioms_ok(ax), "axioms: %s" % (", ".join(ax) or "none (closed)"))
                for x in ax:
                    chk.trusted.append("axiom " + x)
        chk.trusted.append("Coq 8.16.1 kernel incl. vm_compute (no native_compute) and primitive floats/ints")
        # (coqchk re-checks every dependency incl. Coquelicot: 20-40 min per property file, so it is opt-in here;
        #  harness/coqchk_all.sh runs it ONCE over all property files)
        if os.environ.get("VERIF_COQCHK") == "1" and os.path.exists(os.path.join(common.COQ, "Properties", a.cid + ".vo")):
            # independent re-check of the compiled property file and everything it depends on
            import subprocess
            p = subprocess.run(["timeout", "3000", "coqchk", "-Q", common.COQ, "SSP", "-o", "SSP.Properties." + a.cid],
                               capture_output=True, text=True)
            okc = p.returncode == 0 and "Modules were successfully checked" in p.stdout
            tail = p.stdout[p.stdout.find("CONTEXT SUMMARY"):] if "CONTEXT SUMMARY" in p.stdout else (p.stdout + p.stderr)[-500:]
            ax = [l.strip() for l in tail.splitlines() if l.startswith("    ") and not any(k in l for k in ("Int63", "PrimFloat", "Uint63"))]
            chk.oblige("coqchk (independent checker) accepts Properties/%s.vo and its dependencies" % a.cid, okc,
                       "axioms besides primitive ints/floats: " + ", ".join(ax))
        # 2..4 property-specific ties, correspondence, oracle
        if a.replay:
            mod.replay(chk, json.load(open(a.replay)))
        else:
            mod.run(chk)
        rc = common.finish(chk, getattr(mod, "classify", None), write_evidence=write_ev)
    except Exception:
        traceback.print_exc()
        chk.oblige("check machinery ran to completion", False, traceback.format_exc()[-1500:])
        rc = common.finish(chk, getattr(mod, "classify", None), write_evidence=write_ev)   # (a seed trial must not overwrite the evidence on this path either)
    sys.exit(rc)


if __name__ == "__main__":
    main()
