"""Apply every stored seed to /repo in turn, run the checks named for it, undo; write seeded/MATRIX.json.
usage: python3 harness/seed_matrix.py [seedname ...]"""
import json, os, subprocess, sys
V = os.path.dirname(os.path.dirname(os.path.abspath(__file__)))
R = os.environ.get("SSPTOOLS_REPO", "/repo")
ALSO = {"C02b": ["C17"], "C01": ["C02"], "C02": ["C01"], "C05": ["C06"], "C04": [], "C19": ["C18"], "C14": ["C19"], "C18": [], "C16": [], "C06": []}
names = sys.argv[1:] or sorted(os.listdir(os.path.join(V, "seeded")))
MP = os.path.join(V, "seeded", "MATRIX.json")
res = json.load(open(MP)) if (sys.argv[1:] and os.path.exists(MP)) else {}
for name in names:
    d = os.path.join(V, "seeded", name)
    if not os.path.exists(os.path.join(d, "patch.diff")):
        continue
    meta = json.load(open(os.path.join(d, "meta.json")))
    prop = meta["property"]
    if subprocess.run(["git", "-C", R, "apply", "--check", os.path.join(d, "patch.diff")]).returncode != 0:
        res[name] = dict(property=prop, status="patch no longer applies to /repo HEAD")
        continue
    subprocess.run(["git", "-C", R, "apply", os.path.join(d, "patch.diff")], check=True)
    try:
        demo = subprocess.run(["/venv/bin/python", os.path.join(d, "demo.py")], env=dict(os.environ, PYTHONPATH=R), capture_output=True).returncode
        row = dict(property=prop, demo_fails_with_patch=demo != 0, checks={})
        if demo == 0:
            row["status"] = "no longer manifests on /repo HEAD (its own demo passes with the patch applied)"
        for c in [prop] + ALSO.get(name, []):
            p = subprocess.run(["./check", c, "--tier", "quick"], cwd=V, capture_output=True, text=True, env=dict(os.environ, VERIF_NO_EVIDENCE="1"))
            viol = [l for l in p.stdout.splitlines() if l.startswith("VIOLATION")]
            row["checks"][c] = ("caught: failing input" if any("no-failing-input-found" not in l for l in viol) else
                                "caught: no-failing-input-found" if viol else "MISSED")
        res[name] = row
    finally:
        subprocess.run(["git", "-C", R, "checkout", "--", "."], check=True)
    print(name, json.dumps(res[name]), flush=True)
json.dump(res, open(MP, "w"), indent=1, sort_keys=True)
