"""T2: fail-closed translator  python ast -> Gallina  for closed arithmetic kernels.

For every requested site the expression currently in /repo's source is
extracted (by function and assignment target / return), translated to a
NumOps-polymorphic Gallina definition, and a lemma is generated stating that
it equals the hand-written model kernel at the real instance for all
arguments (and all junk records).  The lemma is attempted by `reflexivity`,
then by unfolding + `ring`.  A lemma that checks means the theorems about the
model kernel hold of the expression that is in the source file now.  A lemma
that does not check is NOT by itself an alarm (a harmless rewrite can cause
it): the kernel's tie then rests on the behavioural correspondence (T3), and
the evidence records `formula_tie: behavioural` for it.
"""
import ast
import os
import re

import common as C

SRC = {
    "masses": "ssptools/masses.py",
    "evolve_mf": "ssptools/evolve_mf.py",
    "ifmr": "ssptools/ifmr.py",
    "kicks": "ssptools/kicks.py",
    "Kroupa": "ssptools/Kroupa.py",
}


class Untranslatable(Exception):
    pass


def _find_func(tree, qual):
    node = tree
    for part in qual.split("."):
        found = None
        for ch in ast.walk(node) if part != qual.split(".")[0] else ast.iter_child_nodes(node):
            if isinstance(ch, (ast.FunctionDef, ast.ClassDef)) and ch.name == part:
                found = ch
                break
        if found is None:
            # nested function anywhere below
            for ch in ast.walk(node):
                if isinstance(ch, (ast.FunctionDef, ast.ClassDef)) and ch.name == part:
                    found = ch
                    break
        if found is None:
            raise Untranslatable("function %s not found (at %s)" % (qual, part))
        node = found
    return node


def _peel(e):
    """strip asarray(...) wrappers and mask subscripts x[mask]"""
    while True:
        if isinstance(e, ast.Call) and isinstance(e.func, ast.Attribute) and e.func.attr in ("asarray", "asanyarray") \
                and len(e.args) >= 1:
            e = e.args[0]
            continue
        if isinstance(e, ast.Subscript) and isinstance(e.slice, ast.Name) and not isinstance(e.value, ast.Name):
            e = e.value
            continue
        return e


def extract(site):
    """site = 'module.Qual.name:target[#n]'  target = 'return' or an assigned name;
    #n selects the n-th match (0-based)."""
    mod, rest = site.split(".", 1)
    qual, target = rest.split(":")
    nth = 0
    if "#" in target:
        target, nth = target.split("#")
        nth = int(nth)
    path = os.path.join(C.REPO, SRC[mod])
    tree = ast.parse(open(path).read())
    fn = _find_func(tree, qual)
    hits = []
    for st in ast.walk(fn):
        if target == "return" and isinstance(st, ast.Return) and st.value is not None:
            hits.append(st.value)
        elif isinstance(st, ast.Assign) and len(st.targets) == 1:
            t = st.targets[0]
            if isinstance(t, ast.Name) and t.id == target:
                hits.append(st.value)
            elif isinstance(t, ast.Subscript) and isinstance(t.value, ast.Name) and t.value.id + "[]" == target:
                hits.append(st.value)
        elif isinstance(st, ast.NamedExpr) and isinstance(st.target, ast.Name) and st.target.id == target:
            hits.append(st.value)
    # keep source order
    hits.sort(key=lambda n: (n.lineno, n.col_offset))
    if len(hits) <= nth:
        raise Untranslatable("site %s: %d matches" % (site, len(hits)))
    return _peel(hits[nth]), path


def _num(v):
    if isinstance(v, bool):
        raise Untranslatable("bool literal")
    if isinstance(v, int):
        return "(nofZ (%d))" % v
    if isinstance(v, float):
        if v == int(v) and abs(v) < 2 ** 53:
            return "(nofZ (%d))" % int(v)
        s = repr(v)
        m = re.fullmatch(r"(-?)(\d*)\.(\d+)", s)
        if not m:
            m2 = re.fullmatch(r"(-?)(\d+)(?:\.(\d+))?e(-?\d+)", s)
            if not m2:
                raise Untranslatable("float literal %r" % v)
            sign, ip, fp, ex = m2.group(1), m2.group(2), m2.group(3) or "", int(m2.group(4))
            mant = int(ip + fp)
            ex10 = ex - len(fp)
        else:
            sign, ip, fp = m.group(1), m.group(2) or "0", m.group(3)
            mant = int(ip + fp)
            ex10 = -len(fp)
        num = "(nofZ (%s%d))" % ("-" if sign else "", mant)
        if ex10 >= 0:
            return "(%s * nofZ (%d))" % (num, 10 ** ex10)
        return "(%s / nofZ (%d))" % (num, 10 ** (-ex10))
    raise Untranslatable("literal %r" % (v,))


FUNCS = {"log": "nln", "exp": "nexp", "sqrt": "nsqrt", "abs": "nabs", "erf": "nerf", "absolute": "nabs"}


def tr(e, names):
    """names: python name/'a[0]'/'self.x' -> Gallina variable"""
    if isinstance(e, ast.BinOp):
        l, r = tr(e.left, names), tr(e.right, names)
        op = {ast.Add: "+", ast.Sub: "-", ast.Mult: "*", ast.Div: "/", ast.Pow: "**"}.get(type(e.op))
        if op is None:
            raise Untranslatable("operator %s" % type(e.op).__name__)
        return "(%s %s %s)" % (l, op, r)
    if isinstance(e, ast.UnaryOp):
        if isinstance(e.op, ast.USub):
            if isinstance(e.operand, ast.Constant):
                return _num(-e.operand.value)
            return "(- %s)" % tr(e.operand, names)
        if isinstance(e.op, ast.UAdd):
            return tr(e.operand, names)
        raise Untranslatable("unary %s" % type(e.op).__name__)
    if isinstance(e, ast.Constant):
        return _num(e.value)
    if isinstance(e, ast.Name):
        if e.id in names:
            return names[e.id]
        raise Untranslatable("free name %s" % e.id)
    if isinstance(e, ast.Attribute):
        key = ast.unparse(e)
        if key in names:
            return names[key]
        raise Untranslatable("attribute %s" % key)
    if isinstance(e, ast.Subscript):
        key = ast.unparse(e)
        if key in names:
            return names[key]
        raise Untranslatable("subscript %s" % key)
    if isinstance(e, ast.Call):
        f = e.func
        nm = f.attr if isinstance(f, ast.Attribute) else (f.id if isinstance(f, ast.Name) else None)
        if nm == "pow" and len(e.args) == 2:
            return "(%s ** %s)" % (tr(e.args[0], names), tr(e.args[1], names))
        if nm in FUNCS and len(e.args) == 1 and not e.keywords:
            return "(%s %s)" % (FUNCS[nm], tr(e.args[0], names))
        raise Untranslatable("call %s" % ast.unparse(e)[:60])
    raise Untranslatable("node %s" % type(e).__name__)


def tie(chk, cid, specs, imports, names_for=None):
    """specs: list of (site, src_name, args, model_expr[, names]) ; args are
    Gallina variable names; python names map to themselves unless `names`
    (dict) is given."""
    os.makedirs(C.GEN, exist_ok=True)
    files, meta = [], []
    status = {}
    for spec in specs:
        site, src_name, args, model_expr = spec[:4]
        names = dict((a, a) for a in args)
        if len(spec) > 4:
            names.update(spec[4])
        try:
            expr, path = extract(site)
            body = tr(expr, names)
            pysrc = ast.unparse(expr)
        except Untranslatable as ex:
            status[src_name] = dict(tie="behavioural", reason="untranslatable: %s" % ex)
            continue
        path_v = os.path.join(C.GEN, "Tie_%s_%s.v" % (cid, src_name))
        argdecl = " ".join(args)
        with open(path_v, "w") as f:
            f.write("(* generated by harness/gen_formulas.py from %s -- do not edit *)\n" % site)
            f.write("From Coq Require Import Reals ZArith.\nFrom SSP Require Import Num.\n%s\n" % imports)
            f.write("Local Open Scope num_scope.\n")
            f.write("(* python: %s *)\n" % pysrc.replace("*)", "* )"))
            f.write("Definition %s {T : Type} {O : NumOps T} (%s : T) : T :=\n  %s.\n" % (src_name, argdecl, body))
            f.write("Lemma %s_tie : forall (J : Junk) (%s : R),\n  %s (O:=R_ops J) %s = (%s)%%R.\n" % (
                src_name, argdecl, src_name, argdecl,
                re.sub(r"\b(%s)\b" % "|".join(re.escape(a) for a in args), lambda m: m.group(0), model_expr)
                .replace("@@", "(O:=R_ops J)")))
            f.write("Proof. intros. first [ reflexivity | unfold %s; cbv beta delta [%s]; cbn; ring ]. Qed.\n" % (
                src_name, " ".join(spec[5]) if len(spec) > 5 else src_name))
        files.append(path_v)
        meta.append((src_name, site, pysrc))
    res = C.coqc_many(files, timeout=300)
    for (src_name, site, pysrc), path_v in zip(meta, files):
        rc, out, err = res[path_v]
        if rc == 0:
            status[src_name] = dict(tie="proved", site=site, python=pysrc)
            chk.oblige("[gen] %s_tie: source expression at %s = model kernel (all arguments)" % (src_name, site), True,
                       pysrc[:200])
        else:
            status[src_name] = dict(tie="behavioural", site=site, python=pysrc,
                                    reason=(err or out).strip().splitlines()[-1][:300] if (err or out).strip() else "")
    chk.extra.setdefault("formula_tie", {}).update(status)
    beh = [k for k, v in status.items() if v["tie"] != "proved"]
    if beh:
        chk.notes.append("formula tie fell back to behavioural correspondence for: %s" % ", ".join(beh))
    return status
