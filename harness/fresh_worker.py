"""Evaluate ONE constructor call in a fresh interpreter and print a digest of its result (C16 reference)."""
import hashlib
import json
import os
import sys
import warnings

sys.path.insert(0, os.environ.get("SSPTOOLS_REPO", "/repo"))
warnings.filterwarnings("ignore")
import logging
logging.disable(logging.CRITICAL)
import numpy as np
np.seterr(all="ignore")


def build(desc, pool=None):
    """desc: dict(kind=..., args...) with literal (JSON) arguments; pool maps handle -> live object (history mode)"""
    from ssptools import evolve_mf as emf
    from ssptools.ifmr import IFMR
    from ssptools.masses import PowerLawIMF

    def val(x):
        if isinstance(x, dict) and "$h" in x:
            return pool[x["$h"]]
        if isinstance(x, dict) and "$imf" in x:
            return PowerLawIMF(x["$imf"]["mb"], x["$imf"]["a"], N0=x["$imf"]["N0"], ext=x["$imf"].get("ext", 1))
        if isinstance(x, dict) and "$arr" in x:
            return np.array(x["$arr"], dtype=float)
        return x
    k = desc["kind"]
    a = {n: val(v) for n, v in desc["args"].items()}
    if k == "IFMR":
        return IFMR(a.pop("FeH"), **a)
    if k == "EvolvedMF":
        return emf.EvolvedMF(a.pop("IMF"), a.pop("nbins"), a.pop("FeH"), a.pop("tout"), a.pop("esc_rate"), **a)
    if k == "EvolvedMFWithBH":
        return emf.EvolvedMFWithBH(a.pop("IMF"), a.pop("nbins"), a.pop("FeH"), a.pop("tout"), a.pop("esc_rate"), a.pop("f_BH"), **a)
    if k == "from_IMF":
        return emf.InitialBHPopulation.from_IMF(a.pop("IMF"), a.pop("nbins"), a.pop("FeH"), **a)
    if k == "from_BHMF":
        return emf.InitialBHPopulation.from_BHMF(a.pop("m_breaks"), a.pop("a_slopes"), a.pop("nbins"), a.pop("FeH"), **a)
    raise ValueError(k)


def digest(obj):
    h = hashlib.sha256()
    names = ["Ns", "alpha", "Ms", "ms", "N", "M", "m", "age", "Ns_lost", "Ms_lost", "BH_ret_dyn", "converged", "mmean"]
    for n in names:
        if hasattr(obj, n):
            try:
                v = getattr(obj, n)
            except Exception:
                continue
            h.update(n.encode())
            h.update(np.ascontiguousarray(np.asarray(v, dtype=float)).tobytes())
    for n in ("Nr", "Mr", "mr"):
        if hasattr(obj, n):
            for c in getattr(obj, n):
                h.update(np.ascontiguousarray(np.asarray(c, dtype=float)).tobytes())
    for n in ("BH_mi", "BH_mf", "WD_mi", "WD_mf"):
        src = obj if hasattr(obj, n) else getattr(obj, "IFMR", None)
        if src is not None and hasattr(src, n):
            h.update(np.asarray(tuple(getattr(src, n)), dtype=float).tobytes())
    return h.hexdigest()[:24]


if __name__ == "__main__":
    desc = json.loads(sys.argv[1])
    try:
        print("DIGEST " + digest(build(desc)))
    except Exception as e:  # noqa
        print("DIGEST ERR:" + type(e).__name__)
