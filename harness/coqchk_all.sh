#!/bin/sh
# Independent re-check (coqchk) of every compiled property file and everything it depends on.
# One coqchk per property file (a single invocation over all of them did not finish in 4 h), JOBS in parallel (each needs up to ~4 GB);
# the context summary of each (axioms, type-in-type, unsafe fixpoints, assumed positivity) goes to coqchk_summary.txt .
# usage: harness/coqchk_all.sh [JOBS=6] [per-file timeout in s = 10800]
cd "$(dirname "$0")/../coq" || exit 2
jobs=${1:-6}; tmo=${2:-10800}
out=$(mktemp -d)
ls Properties/*.vo | sed 's#Properties/\(.*\)\.vo#\1#' | xargs -P "$jobs" -I{} sh -c \
  "timeout $tmo coqchk -Q . SSP -o SSP.Properties.{} > $out/{}.log 2>&1; echo \$? > $out/{}.rc"
{ echo "coqchk per property file (Coq 8.16.1), $(date -u +%Y-%m-%dT%H:%MZ)"; fail=0
  for f in Properties/*.vo; do m=$(basename $f .vo); rc=$(cat $out/$m.rc 2>/dev/null || echo missing)
    ok=$(grep -c "Modules were successfully checked" $out/$m.log 2>/dev/null)
    echo "== $m: exit $rc, 'Modules were successfully checked': $ok"
    [ "$rc" = 0 ] && [ "$ok" = 1 ] || fail=1
    awk '/CONTEXT SUMMARY/{f=1} f' $out/$m.log | grep -v "Int63\|PrimFloat\|Uint63\|^$" | sed 's/^/   /'
  done; echo "overall: $([ $fail = 0 ] && echo all accepted || echo SOME NOT ACCEPTED)"; } > ../coqchk_summary.txt
rm -rf "$out"
tail -3 ../coqchk_summary.txt
