#!/bin/sh
# Independent re-check (coqchk) of ALL compiled property files and everything they depend on, in one invocation.
# Writes the context summary (axioms, type-in-type, unsafe fixpoints, assumed positivity) to coqchk_summary.txt .
cd "$(dirname "$0")/../coq" || exit 2
mods=$(ls Properties/*.vo | sed 's#Properties/\(.*\)\.vo#SSP.Properties.\1#' | tr '\n' ' ')
timeout 14400 coqchk -Q . SSP -o $mods > /tmp/coqchk_all.$$ 2>&1; rc=$?
{ echo "coqchk exit code: $rc"; echo "modules: $mods"; grep -n "Modules were successfully checked" /tmp/coqchk_all.$$; awk '/CONTEXT SUMMARY/{f=1} f' /tmp/coqchk_all.$$ | grep -v "Int63\|PrimFloat\|Uint63"; } > ../coqchk_summary.txt
rm -f /tmp/coqchk_all.$$
cat ../coqchk_summary.txt
exit $rc
