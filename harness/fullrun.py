"""Random valid configurations over the documented domain, full constructions (in parallel), closed-form references."""
import math
import os
import sys
import warnings
from concurrent.futures import ProcessPoolExecutor

import numpy as np

import common as C

BH_METHODS = ["banerjee20", "banerjee20", "banerjee20-delayed", "cosmic-rapid", "cosmic-delayed", "linear", "powerlaw", "brokenpowerlaw"]


def gen_config(rng, escape=None, kicks=None, ntout=None, cls=None):
    nseg = rng.choice([1, 2, 3, 3, 4])
    lo = rng.choice([0.08, 0.1, 0.1, 0.2])
    hi = rng.choice([50.0, 100.0, 100.0, 120.0, 150.0])
    cand = [0.5, 1.0, 0.3, 2.0, 8.0, 20.0, 0.8]
    inner = sorted(rng.sample(cand, nseg - 1))
    mb = [lo] + inner + [hi]
    a = [rng.choice([rng.uniform(-3.0, 0.5), -0.5, -1.3, -2.3, -2.35, -1.0, -2.0, -2.5]) for _ in range(nseg)]
    nb = rng.choice(["list", "list", "int"])
    nbins = [rng.choice([1, 2, 3, 5, 8, 12]) for _ in range(nseg)] if nb == "list" else rng.choice([nseg * 2, 10, 24])
    if not isinstance(nbins, int):
        nbins[-1] = max(nbins[-1], 4)
    if rng.random() < 0.2 and hi >= 50.0:
        # dict form: stellar counts as before, remnant bins requested explicitly (NS entry optional)
        nbins = dict(MS=nbins, WD=rng.choice([3, 6, 10]), BH=rng.choice([4, 8, 12]))
        if rng.random() < 0.5:
            nbins["NS"] = 1
    meth = rng.choice(BH_METHODS)
    feh = rng.choice([-2.5, -2.0, -1.5, -1.0, -0.5, 0.0, 0.3, 0.5, rng.uniform(-2.5, 0.5)])
    nt = ntout or rng.choice([1, 1, 2, 3, 4])
    # (incl. ages of a Myr or two: the heaviest stars of the IFMR grid have died, those of the IMF not yet - no BH exists)
    tout = [rng.choice([rng.uniform(0, 14000), rng.uniform(1, 100), 12000.0, 0.0, rng.uniform(1.05, 2.5)]) for _ in range(nt)]
    tout = list(dict.fromkeys(tout))
    N0 = 10 ** rng.uniform(4, 7)
    cfg = dict(cls=cls or "EvolvedMF", m_breaks=mb, a_slopes=a, nbins=nbins, FeH=feh, tout=tout, N0=N0, BH_IFMR_method=meth,
               NS_ret=rng.choice([0.1, 0.0, 1.0, rng.random()]), BH_ret_int=rng.choice([1.0, 1.0, 0.5, rng.random(), 0.0]), BH_ret_dyn=1.0,
               binning_method=rng.choice(["default", "default", "split_linear"]), esc_rate=0.0)
    esc = rng.random() < 0.5 if escape is None else escape
    if esc:
        tmax = max(max(tout), 100.0)      # (a schedule of very young ages must not turn into an escape rate that strips the low-mass stars within a Myr)
        cfg["esc_rate"] = -rng.uniform(0.02, 0.4) * N0 / tmax
        cfg["esc_norm"] = rng.choice(["N", "M"])
        if cfg["esc_norm"] == "M":
            # a mass rate: scaled with the IMF's mean mass (continuity-normalised closed form), so that bottom-heavy IMFs are not dissolved
            # before the last age (stellar evolution removes mass as well: factor 0.5)
            cfg["esc_rate"] *= 0.5 * min(1.0, imf_mean_mass(mb, a))
        cfg["tcc"] = rng.choice([0.0, 0.0, tmax * rng.random(), 1e9])
        cfg["md"] = rng.choice([1.2, 1.2, 0.8, 2.0])
    kk = rng.random() < 0.3 if kicks is None else kicks
    if kk:
        cfg["natal_kicks"] = True
        cfg["kick_method"] = rng.choice(["maxwellian", "sigmoid"])
        cfg["vesc"] = rng.choice([30, 90, 300])
        cfg["BH_ret_dyn"] = rng.choice([0.05, 0.3])
    elif rng.random() < 0.4:
        cfg["BH_ret_dyn"] = rng.choice([0.0, 0.2, 0.7, 0.95])
    if rng.random() < 0.35:
        cfg["imf_ext"] = rng.choice(["extrapolate", "extrapolate", "zeros", "raise"])
    if rng.random() < 0.15 and isinstance(cfg["nbins"], list):
        # bins on breaks of their own, covering only part of the IMF's range (IMF breaks inside stay bin edges)
        bb = [mb[0] * rng.choice([1.0, 2.0])] + inner + [hi * rng.choice([1.0, 0.6])]
        if all(y > x for x, y in zip(bb, bb[1:])):
            cfg["binning_breaks"] = bb
    if cfg["cls"] == "EvolvedMFWithBH":
        cfg.pop("BH_ret_dyn", None)
        cfg["f_BH"] = [rng.choice([0.0, 1e-4, 1e-3]) for _ in tout]
        cfg["strict_BH_target"] = False
    return cfg


def imf_mean_mass(mb, a):
    """mean stellar mass of a continuous broken power law (closed form per segment)"""
    c, num, den = 1.0, 0.0, 0.0
    for i in range(len(a)):
        if i:
            c *= mb[i] ** (a[i - 1] - a[i])
        for k, acc in ((1, "n"), (2, "m")):
            p = a[i] + k
            v = c * (math.log(mb[i + 1] / mb[i]) if p == 0 else (mb[i + 1] ** p - mb[i] ** p) / p)
            if acc == "n":
                den += v
            else:
                num += v
    return num / den


def build(cfg, ode_override=None):
    sys.path.insert(0, C.REPO)
    import ssptools.evolve_mf as emf
    kw = {k: v for k, v in cfg.items() if k not in ("cls", "want_ifmr_grid", "imf_ext")}
    if len(kw["tout"]) == 1 and "f_BH" in kw:
        kw["f_BH"] = kw["f_BH"][0]
    old = emf.ode
    if ode_override is not None:
        emf.ode = ode_override
    try:
        if cfg.get("imf_ext") is not None:
            # the primary constructor, with an IMF object the user built (any out-of-range mode; the IMF's own N0 is unrelated)
            from ssptools.masses import PowerLawIMF
            imf = PowerLawIMF(kw.pop("m_breaks"), kw.pop("a_slopes"), N0=1234.5, ext=cfg["imf_ext"])
            pos = [imf, kw.pop("nbins"), kw.pop("FeH"), kw.pop("tout"), kw.pop("esc_rate")]
            if "f_BH" in kw:
                pos.append(kw.pop("f_BH"))
            return getattr(emf, cfg["cls"])(*pos, **kw)
        return getattr(emf, cfg["cls"]).from_powerlaw(**kw)
    finally:
        emf.ode = old


def run_config(arg):
    """worker: build one model, return its arrays (or the exception)"""
    cfg, tol = arg if isinstance(arg, tuple) else (arg, None)
    np.seterr(all="ignore")
    import logging
    logging.disable(logging.CRITICAL)
    out = dict(cfg=cfg, tol=tol)
    try:
        with warnings.catch_warnings(record=True) as w:
            warnings.simplefilter("always")
            ov = None
            if tol is not None:
                sys.path.insert(0, os.path.dirname(os.path.abspath(__file__)))
                import implutil as U
                ov = U.make_recording_ode([], atol=tol, rtol=tol, nsteps=500000)
            m = build(cfg, ov)
            out["warnings"] = [str(x.message)[:80] for x in w]
    except Exception as e:  # noqa
        import traceback
        tb = traceback.extract_tb(e.__traceback__)
        out["error"] = type(e).__name__
        out["msg"] = str(e)[:200]
        out["site"] = "%s:%d (%s)" % (os.path.basename(tb[-1].filename), tb[-1].lineno, tb[-1].name)
        out["sites"] = [f.name for f in tb]
        return out
    out.update(converged=bool(m.converged), Ns=m.Ns, alpha=m.alpha, Ms=m.Ms, ms=m.ms, mmean=np.asarray(m.mmean),
               Nr=[np.asarray(x) for x in m.Nr], Mr=[np.asarray(x) for x in m.Mr], mr=[np.asarray(x) for x in m.mr],
               bins=[(np.atleast_1d(b.lower).copy(), np.atleast_1d(b.upper).copy()) for b in m.massbins.bins],
               tms=[float(x) for x in m._tms_constants], A=[float(x) for x in m.IMF._A_comps],
               bounds=dict(WD_mi=tuple(map(float, m.IFMR.WD_mi)), BH_mi=tuple(map(float, m.IFMR.BH_mi)),
                           WD_mf=tuple(map(float, m.IFMR.WD_mf)), BH_mf=tuple(map(float, m.IFMR.BH_mf)), NS=float(m.IFMR._NS_mass)),
               views=dict(M=np.asarray(m.M), N=np.asarray(m.N), m=np.asarray(m.m), types=[str(x) for x in m.types],
                          nms=int(m.nms), nmr=int(m.nmr), bin_widths=np.asarray(m.bin_widths)),
               BH_ret_dyn=float(m.BH_ret_dyn), Nmin=float(m.Nmin))
    # remnant prediction on a fine progenitor grid, for the closed-form reference
    if cfg.get("want_ifmr_grid"):
        top = cfg["m_breaks"][-1]
        g = np.exp(np.linspace(math.log(0.7), math.log(top), cfg["want_ifmr_grid"]))
        out["grid"] = g
        out["grid_mf"] = np.asarray(m.IFMR.predict(g), dtype=float)
        out["grid_ty"] = m.IFMR.predict_type(g)
    return out


def run_many(cfgs, jobs=None):
    jobs = jobs or C.NPROC
    with ProcessPoolExecutor(max_workers=jobs) as ex:
        return list(ex.map(run_config, cfgs, chunksize=1))


def mto_of(tms, t):
    a0, a1, a2 = tms
    return (math.log(t / a0) / a1) ** (1 / a2) if t > a0 else math.inf


def imf_int(cfg, A, lo, hi, k=1):
    """integral of m^(k-1) N(m) over [lo, hi] (closed form, segment by segment)"""
    mb, a, N0 = cfg["m_breaks"], cfg["a_slopes"], cfg["N0"]
    tot = 0.0
    for i in range(len(a)):
        l, h = max(lo, mb[i]), min(hi, mb[i + 1])
        if h > l:
            p = a[i] + k
            tot += N0 * A[i] * (math.log(h / l) if p == 0 else (h ** p - l ** p) / p)
    return tot
