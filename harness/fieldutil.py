"""Carriers (real EvolvedMF objects) and random ODE states for the field-level ties (C02, C03, C18, C05)."""
import copy
import math

import numpy as np

import common as C
import implutil as U

CARRIER_KW = [
    dict(),
    dict(nbins=[2, 2, 6], FeH=-2.0, NS_ret=0.3, BH_ret_int=0.6, BH_ret_dyn=0.9),
    dict(m_breaks=[0.1, 1.0, 100.0], a_slopes=[-1.3, -2.3], nbins=[1, 20], FeH=0.0, NS_ret=1.0, BH_ret_int=0.45, BH_ret_dyn=0.8),
    dict(m_breaks=[0.08, 0.5, 150.0], a_slopes=[-1.0, -2.0], nbins=[4, 12], FeH=-0.5, binning_method="split_linear",
         NS_ret=0.0, BH_ret_int=1.0, BH_ret_dyn=0.5),
    dict(m_breaks=[0.1, 100.0], a_slopes=[-2.35], nbins=3, FeH=-1.5, NS_ret=0.7, BH_ret_int=0.2, BH_ret_dyn=1.0),
    dict(nbins=[5, 5, 20], FeH=0.3, BH_IFMR_method="cosmic-rapid", NS_ret=0.5, BH_ret_int=0.8, BH_ret_dyn=0.7),
    dict(m_breaks=[0.1, 0.5, 1.0, 100.0], a_slopes=[0.3, -1.0, -2.0], nbins=[3, 3, 30], FeH=-1.0, BH_IFMR_method="linear",
         NS_ret=0.9, BH_ret_int=0.3, BH_ret_dyn=0.6),
    dict(nbins=[1, 1, 2], FeH=-1.0, NS_ret=0.1, BH_ret_int=1.0, BH_ret_dyn=1.0),
]
DEFAULTS = dict(NS_ret=0.1, BH_ret_int=1.0, BH_ret_dyn=1.0)


def carriers(n=None):
    out = []
    for kw in CARRIER_KW[:n]:
        car = U.base_emf(**kw)
        args = dict(DEFAULTS)
        args.update({k: v for k, v in kw.items() if k in DEFAULTS})
        out.append((car, kw, args))
    return out


def coq_bins(mb):
    lo, up = np.atleast_1d(mb.lower), np.atleast_1d(mb.upper)
    return "[" + "; ".join("(%s, %s)" % (C.fl(a), C.fl(b)) for a, b in zip(lo, up)) + "]"


def random_state(rng, car, scale=None):
    """arbitrary (not necessarily reachable) state: Ns around/above/below Nmin, any slopes, any remnants"""
    mb = car.massbins
    nb = mb.nbin
    scale = scale or 10 ** rng.uniform(0, 6)
    def cnt():
        r = rng.random()
        if r < 0.1:
            return 0.0
        if r < 0.2:
            return rng.choice([0.05, 0.1, 0.1000001, 0.09999, 0.5, 1.0])
        return scale * 10 ** rng.uniform(-3, 0)
    Ns = [cnt() for _ in range(nb.MS)]
    al = [rng.choice([rng.uniform(-4, 2), -1.0, -2.0, -1.5, -2.5, -2.35, -0.5]) for _ in range(nb.MS)]
    Nr, Mr = [], []
    for cls, n in (("WD", nb.WD), ("NS", nb.NS), ("BH", nb.BH)):
        b = getattr(mb.bins, cls)
        lo, up = np.atleast_1d(b.lower), np.atleast_1d(b.upper)
        for j in range(n):
            k = cnt() if rng.random() < 0.7 else 0.0
            m = lo[j] + (up[j] - lo[j]) * rng.random()
            Nr.append(k)
            Mr.append(k * m)
    y = np.array(Ns + al + Nr + Mr, dtype=float)
    return y


def random_time(rng, car):
    a0 = float(car._tms_constants[0])
    tms_u = car.tms_u
    kind = rng.choice(["log", "log", "log", "edge", "early", "late"])
    if kind == "log":
        return 10 ** rng.uniform(math.log10(a0 * 1.0001), math.log10(14000))
    if kind == "edge":
        x = float(rng.choice(list(tms_u)))
        return float(rng.choice([x, np.nextafter(x, 0), np.nextafter(x, 1e99), x * (1 + 1e-9)]))
    if kind == "early":
        return a0 * rng.uniform(0.2, 1.0)
    return 10 ** rng.uniform(4, 6)
