"""Helpers to drive the real implementation from the harness process."""
import contextlib
import copy
import warnings

import numpy as np


def mods():
    import ssptools.evolve_mf as emf
    import ssptools.masses as masses
    import ssptools.ifmr as ifmr
    import ssptools.kicks as kicks
    return emf, masses, ifmr, kicks


class FakeOde:
    """Stand-in for scipy.integrate.ode: integrate(t) sets y = state_fn(t)."""
    state_fn = None
    success_fn = None
    log = None

    def __init__(self, f):
        self.f = f
        self.t = 0.0
        self.y = None
        self._ok = True

    def set_integrator(self, *a, **k):
        return self

    def set_initial_value(self, y, t=0.0):
        self.y = np.array(y, dtype=float)
        self.y0 = self.y.copy()
        self._last = self.y.copy()
        self.t = t
        return self

    def integrate(self, t):
        cls = type(self)
        self.t = t
        if cls.log is not None:
            cls.log.append(float(t))
        new = np.array(cls.state_fn(t, self.y0), dtype=float)
        # like the real solver, continue from the state object the caller can see: whatever the
        # caller wrote into `sol.y` since the last call is carried into the next state
        last = getattr(self, "_last", None)
        if last is not None and last.shape == new.shape == np.shape(self.y):
            with np.errstate(all="ignore"):
                delta = np.asarray(self.y, dtype=float) - last
            dmg = ~(delta == 0)
            new[dmg] = new[dmg] + delta[dmg]
        self.y = new
        self._last = new.copy()
        if cls.success_fn is not None:
            self._ok = bool(cls.success_fn(t))
        return self.y

    def successful(self):
        return self._ok


@contextlib.contextmanager
def fake_ode(state_fn, success_fn=None):
    emf, *_ = mods()
    old = emf.ode
    cls = type("FakeOdeInst", (FakeOde,), {})
    cls.state_fn = staticmethod(state_fn)
    cls.success_fn = staticmethod(success_fn) if success_fn else None
    cls.log = []
    emf.ode = cls
    try:
        yield cls
    finally:
        emf.ode = old


@contextlib.contextmanager
def patched(obj, name, value):
    old = getattr(obj, name)
    setattr(obj, name, value)
    try:
        yield
    finally:
        setattr(obj, name, old)


def make_recording_ode(log, **override):
    """Subclass of the real scipy ode that records integrate targets,
    solver times, success flags and (optionally) overrides tolerances."""
    from scipy.integrate import ode as real_ode

    class RecOde(real_ode):
        def set_integrator(self, name, **kw):
            kw.update(override)
            return super().set_integrator(name, **kw)

        def integrate(self, t, *a, **k):
            r = super().integrate(t, *a, **k)
            log.append(dict(target=float(t), t=float(self.t), ok=bool(self.successful()), y=self.y.copy()))
            return r
    return RecOde


_EMF_CACHE = {}


def base_emf(key="default", **kw):
    """A (cached) small real EvolvedMF used as a carrier object."""
    emf, masses, *_ = mods()
    k = (key, tuple(sorted((a, repr(b)) for a, b in kw.items())))
    if k not in _EMF_CACHE:
        args = dict(m_breaks=[0.1, 0.5, 1.0, 100], a_slopes=[-0.5, -1.3, -2.5], nbins=[5, 5, 20],
                    FeH=-1.0, tout=[12000.0], esc_rate=0, N0=5e5)
        args.update(kw)
        with warnings.catch_warnings():
            warnings.simplefilter("ignore")
            _EMF_CACHE[k] = emf.EvolvedMF.from_powerlaw(**args)
    return _EMF_CACHE[k]


def bare_emf():
    """an EvolvedMF carrying every attribute a real construction sets (shallow copy of the cached carrier), for calling methods on arrays"""
    import copy
    return copy.copy(base_emf())


def bare_emf_bh():
    import copy
    emf, *_ = mods()
    o = copy.copy(base_emf())
    o.__class__ = emf.EvolvedMFWithBH
    o.strict_BH_target = False
    return o
