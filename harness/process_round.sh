#!/bin/sh
# process_round.sh <dir with <Cxx>/seed/{patch.diff,demo.py,meta.json}> <suffix> : confirm every delivered seed, store it as
# seeded/<Cxx><suffix>, then run the matrix for the confirmed ones.
dir=$1; sfx=$2; names=""
for d in $dir/C*/seed; do
  [ -f $d/meta.json ] || continue
  p=$(basename $(dirname $d))
  [ -d /verif/seeded/$p$sfx ] && continue
  echo "== $p"; /verif/harness/confirm_seed.sh $p $d $p$sfx 2>&1 | grep -v conda | tail -2
  [ -d /verif/seeded/$p$sfx ] && names="$names $p$sfx"
done
[ -n "$names" ] && cd /verif && /venv/bin/python harness/seed_matrix.py $names 2>&1 | grep -v conda | cut -c1-250
