"""T1: regenerate Coq data from /repo's data files and source literals (fail-closed)."""
import os
import re
from decimal import Decimal

import common as C

DATA = os.path.join(C.REPO, "ssptools", "data")


def dec_pair(tok):
    """decimal literal -> (mantissa, exp10) exactly"""
    d = Decimal(tok)
    if not d.is_finite():
        raise ValueError("non-finite literal %r" % tok)
    sign, digits, exp = d.as_tuple()
    m = int("".join(map(str, digits)))
    return (-m if sign else m, int(exp))


def zp(p):
    return "((%d)%%Z, (%d)%%Z)" % p


def read_table(path):
    rows = []
    for line in open(path):
        s = line.strip()
        if not s or s.startswith("#"):
            continue
        rows.append(s.split())
    return rows


def gen_msto(chk):
    """gen/MstoRows.v : the lifetime table as exact decimals + sign obligation +
    the C14 theorems instantiated on every row as it is on disk now."""
    os.makedirs(C.GEN, exist_ok=True)
    rows = read_table(os.path.join(DATA, "sevtables", "msto.dat"))
    for r in rows:
        if len(r) != 4:
            raise ValueError("msto.dat row with %d columns" % len(r))
    body = ";\n  ".join("(%s, %s, %s, %s)" % tuple(zp(dec_pair(t)) for t in r) for r in rows)
    path = os.path.join(C.GEN, "MstoRows.v")
    with open(path, "w") as f:
        f.write("""(* generated from ssptools/data/sevtables/msto.dat -- do not edit *)
From Coq Require Import ZArith List Bool Reals.
From SSP Require Import Num Model.Lifetime Proofs.TableFacts Proofs.LifetimeProofs.
Import ListNotations.
Local Open Scope R_scope.
Definition msto_rows : list msto_row := [
  %s ].
Lemma msto_rows_sign_ok : forallb row_sign_ok msto_rows = true.
Proof. vm_compute. reflexivity. Qed.
(* every tabulated metallicity: lifetime strictly decreasing, turn-off mass the
   inverse, for the coefficients as they are on disk *)
Theorem msto_all_rows : forall r, In r msto_rows ->
  let '(_, a0, a1, a2) := r in
  forall J,
   (forall m m', 0 < m -> m < m' ->
      tms (O:=R_ops J) (dec2R a0) (dec2R a1) (dec2R a2) m' < tms (O:=R_ops J) (dec2R a0) (dec2R a1) (dec2R a2) m) /\\
   (forall m, 0 < m ->
      mto (O:=R_ops J) (dec2R a0) (dec2R a1) (dec2R a2) (tms (O:=R_ops J) (dec2R a0) (dec2R a1) (dec2R a2) m) = m) /\\
   (forall t, dec2R a0 < t ->
      tms (O:=R_ops J) (dec2R a0) (dec2R a1) (dec2R a2) (mto (O:=R_ops J) (dec2R a0) (dec2R a1) (dec2R a2) t) = t).
Proof.
  intros r Hin.
  pose proof (proj1 (forallb_forall _ _) msto_rows_sign_ok r Hin) as Hs.
  apply row_sign_ok_spec in Hs. destruct r as [[[f a0] a1] a2]. destruct Hs as (H0 & H1 & H2).
  intros J. split; [|split].
  - intros m m' Hm Hmm. apply tms_strictly_decreasing; assumption.
  - intros m Hm. apply mto_tms_inverse; assumption.
  - intros t Ht. apply tms_mto_inverse; assumption.
Qed.
Print Assumptions msto_all_rows.
""" % body)
    rc, out, err = C.coqc(path, timeout=300)
    chk.oblige("[gen] msto_rows_sign_ok + msto_all_rows: C14 theorems hold for all %d rows of msto.dat as on disk" % len(rows),
               rc == 0, (err or out)[-400:] if rc else "%d rows" % len(rows))
    return [[float(t) for t in r] for r in rows]
