#!/bin/sh
# try_seed.sh <seedname> <Cxx...> : apply /verif/seeded/<seedname>/patch.diff to /repo, run the checks, undo.
name=$1; shift
cd /repo && git apply /verif/seeded/$name/patch.diff || { echo "apply failed"; exit 2; }
cd /verif
for c in "$@"; do VERIF_NO_EVIDENCE=1 ./check $c --tier quick 2>&1 | grep -E 'VIOLATION|KNOWN|tier=' ; done
git -C /repo checkout -- . ; git -C /repo status --short | head -3
