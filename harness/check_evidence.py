#!/usr/bin/env python3
"""Pre-commit sanity of /verif/evidence: run after the quick checks on the CLEAN tree, before `git commit`.

  python3 harness/check_evidence.py

Fails (exit 1) when an evidence file of a claimed check is missing, does not validate against the schema, records a
violation, has fewer discharged obligations than obligations, or shows no sample: such a file comes from a run on a
changed tree (a seed trial started without VERIF_NO_EVIDENCE=1) or from a check that crashed, and must not be committed.
"""
import json, os, subprocess, sys

V = os.path.dirname(os.path.dirname(os.path.abspath(__file__)))
SCHEMA = "/root/.vp/EVIDENCE.schema.json"


def main():
    man = json.load(open(os.path.join(V, "MANIFEST.json")))
    ids = [c["property_id"] if isinstance(c, dict) else c for c in (man["checks"].values() if isinstance(man["checks"], dict) else man["checks"])]
    bad = []
    for cid in ids:
        p = os.path.join(V, "evidence", cid + ".json")
        if not os.path.exists(p):
            bad.append((cid, "missing"))
            continue
        e = json.load(open(p))
        c = e.get("coverage", {})
        if e.get("property_id") != cid:
            bad.append((cid, "property_id is %r" % e.get("property_id")))
        if e.get("violations"):
            bad.append((cid, "records %d violation(s)" % e["violations"]))
        if c.get("obligations") != c.get("discharged") or not c.get("obligations"):
            bad.append((cid, "discharged %r != obligations %r: %s" % (
                c.get("discharged"), c.get("obligations"), [o["name"] for o in c.get("obligation_list", []) if not o["ok"]])))
        if not c.get("samples"):
            bad.append((cid, "no sample written out"))
        if os.path.exists(SCHEMA):
            code = "import json,jsonschema,sys;jsonschema.validate(json.load(open(sys.argv[1])),json.load(open(sys.argv[2])))"
            r = subprocess.run(["python3-vt", "-c", code, p, SCHEMA], capture_output=True, text=True)
            if r.returncode:
                bad.append((cid, "schema: " + r.stderr.strip().splitlines()[-1][:200]))
    for cid, why in bad:
        print("BAD evidence %s: %s" % (cid, why))
    print("%d evidence files examined, %d problems" % (len(ids), len(bad)))
    return 1 if bad else 0


if __name__ == "__main__":
    sys.exit(main())
