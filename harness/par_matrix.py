"""Parallel seed matrix: every stored seed applied to its own worktree of /repo (outside /repo and /verif), the checks run from a private
copy of /verif (coq/gen and coq/cases are per-copy, so runs do not collide), all removed at the end.
usage: VERIF_SEED=n python3 harness/par_matrix.py <out.json> [-j K] [seedname ...]"""
import json, os, subprocess, sys, shutil, threading, queue
V = os.path.dirname(os.path.dirname(os.path.abspath(__file__)))
R = "/repo"
BASE = "/root/par_matrix"
ALSO = {"C02b": ["C17"], "C01": ["C02"], "C02": ["C01"], "C05": ["C06"], "C19": ["C18"], "C14": ["C19"]}
args = sys.argv[1:]
out = args.pop(0)
K = 12
if args[:1] == ["-j"]:
    K = int(args[1]); args = args[2:]
names = args or sorted(n for n in os.listdir(os.path.join(V, "seeded")) if os.path.exists(os.path.join(V, "seeded", n, "patch.diff")))
q = queue.Queue()
for n in names:
    q.put(n)
res, lock = {}, threading.Lock()


def worker(k):
    v, r = "%s/v%d" % (BASE, k), "%s/r%d" % (BASE, k)
    subprocess.run(["rsync", "-a", "--exclude", ".git", "--exclude", "seeded", "--exclude", "replays", V + "/", v + "/"], check=True)
    subprocess.run(["git", "-C", R, "worktree", "add", "--detach", "-f", r, "HEAD"], check=True, capture_output=True)
    env = dict(os.environ, SSPTOOLS_REPO=r, VERIF_NO_EVIDENCE="1")
    while True:
        try:
            name = q.get_nowait()
        except queue.Empty:
            break
        d = os.path.join(V, "seeded", name)
        prop = json.load(open(os.path.join(d, "meta.json")))["property"]
        if subprocess.run(["git", "-C", r, "apply", os.path.join(d, "patch.diff")], capture_output=True).returncode != 0:
            row = dict(property=prop, status="patch no longer applies")
        else:
            demo = subprocess.run(["/venv/bin/python", os.path.join(d, "demo.py")], env=dict(os.environ, PYTHONPATH=r), capture_output=True).returncode
            row = dict(property=prop, demo_fails_with_patch=demo != 0, checks={})
            for c in [prop] + ALSO.get(name, []):
                p = subprocess.run(["./check", c, "--tier", "quick"], cwd=v, capture_output=True, text=True, env=env)
                viol = [l for l in p.stdout.splitlines() if l.startswith("VIOLATION")]
                row["checks"][c] = ("caught: failing input" if any("no-failing-input-found" not in l for l in viol) else
                                    "caught: no-failing-input-found" if viol else "MISSED")
            subprocess.run(["git", "-C", r, "checkout", "--", "."], check=True)
            subprocess.run(["git", "-C", r, "clean", "-fdq"], check=True)
        with lock:
            res[name] = row
            print(name, json.dumps(row), flush=True)
    subprocess.run(["git", "-C", R, "worktree", "remove", "--force", r])
    shutil.rmtree(v, ignore_errors=True)


os.makedirs(BASE, exist_ok=True)
ts = [threading.Thread(target=worker, args=(k,)) for k in range(K)]
[t.start() for t in ts]
[t.join() for t in ts]
shutil.rmtree(BASE, ignore_errors=True)
subprocess.run(["git", "-C", R, "worktree", "prune"])
json.dump(dict(seed=os.environ.get("VERIF_SEED", "0"), rows=res), open(out, "w"), indent=1, sort_keys=True)
miss = [n for n, r_ in res.items() if r_.get("demo_fails_with_patch") and r_["checks"].get(r_["property"]) == "MISSED"]
print("seeds=%d missed_by_own_check=%s" % (len(res), sorted(miss)))
