#!/bin/sh
# confirm_seed.sh <Cxx> <dir with patch.diff demo.py meta.json> [name]
# Confirms a seeded change in a scratch worktree of /repo's HEAD: patch applies, suite still passes (629),
# demo FAILs with it and PASSes without; then stores it under /verif/seeded/<name>/.
id=$1; src=$2; name=${3:-$1}
wt=/tmp/confirm_$name
git -C /repo worktree remove --force $wt 2>/dev/null
git -C /repo worktree add -q --detach $wt HEAD || exit 2
cd $wt
if ! git apply --3way $src/patch.diff 2>/tmp/confirm_$name.err && ! git apply $src/patch.diff; then echo "PATCH DOES NOT APPLY"; cat /tmp/confirm_$name.err; git -C /repo worktree remove --force $wt; exit 3; fi
git reset -q 2>/dev/null
PYTHONPATH=$wt /venv/bin/python -m pytest -q -p no:cacheprovider --timeout=900 2>&1 | tail -1 > /tmp/confirm_$name.tests
PYTHONPATH=$wt /venv/bin/python $src/demo.py > /tmp/confirm_$name.with 2>&1; rc_with=$?
git checkout -q -- . 
PYTHONPATH=$wt /venv/bin/python $src/demo.py > /tmp/confirm_$name.without 2>&1; rc_without=$?
echo "tests: $(cat /tmp/confirm_$name.tests)"; echo "demo with patch rc=$rc_with ; without rc=$rc_without"
cd /; git -C /repo worktree remove --force $wt
if [ $rc_with -ne 0 ] && [ $rc_without -eq 0 ] && grep -q '629 passed' /tmp/confirm_$name.tests; then
  mkdir -p /verif/seeded/$name; cp $src/patch.diff $src/demo.py /verif/seeded/$name/
  /venv/bin/python - "$src/meta.json" "/verif/seeded/$name/meta.json" "$(cat /tmp/confirm_$name.tests)" $rc_with $rc_without "$(git -C /repo rev-parse --short HEAD)" <<'PY'
import json,sys
m=json.load(open(sys.argv[1])); m['confirmed']=dict(suite=sys.argv[3],demo_rc_with_patch=int(sys.argv[4]),demo_rc_without=int(sys.argv[5]),repo_head=sys.argv[6],
  how="harness/confirm_seed.sh: fresh worktree of /repo HEAD, git apply patch.diff, full pytest suite, demo.py with and without the patch")
json.dump(m,open(sys.argv[2],'w'),indent=1)
PY
  echo CONFIRMED
else echo "NOT CONFIRMED"; tail -5 /tmp/confirm_$name.with /tmp/confirm_$name.without; fi
rm -f /tmp/confirm_$name.*
